package main

import (
	"fmt"
	"go/ast"
	"go/token"
	"sort"
	"strings"
)

// E6-export + the C16 part of E9: facts the Pipe model hard-codes, re-read from the current
// source on every run.
//   - the members of the oneof j5.schema.v1.Field.type (generated code) against the case arms of
//     the type switches over it in export.convertSchema and j5client.buildListRequest;
//   - the naming constants on the producer and the consumer side;
//   - the shape of the guard in walkSchemaFields, the visited test in collectPackageRefs and
//     assertRefsLink, and of HasBody in methodFromSource.
func init() { extractors["pipe"] = extractPipe }

// stringLits collects every string literal below n, in source order.
func stringLits(n ast.Node) []string {
	var out []string
	ast.Inspect(n, func(m ast.Node) bool {
		if bl, ok := m.(*ast.BasicLit); ok && bl.Kind == token.STRING {
			if s, ok := unquote(bl.Value); ok {
				out = append(out, s)
			}
		}
		return true
	})
	return out
}

// typeSwitchArms returns, for the first type switch in fn whose tag expression ends in
// `.Type` (x.Type.(type)) and which has an arm on a `schema_j5pb.Field_*` type, the arm type
// names and whether a default arm exists. nth selects the n-th such switch (0-based).
func fieldTypeSwitch(fn *ast.FuncDecl, nth int) (arms []string, hasDefault bool, found bool) {
	if fn == nil {
		return nil, false, false
	}
	k := 0
	ast.Inspect(fn.Body, func(n ast.Node) bool {
		ts, ok := n.(*ast.TypeSwitchStmt)
		if !ok || found {
			return !found
		}
		var local []string
		def := false
		isField := false
		for _, c := range ts.Body.List {
			cc := c.(*ast.CaseClause)
			if cc.List == nil {
				def = true
			}
			for _, e := range cc.List {
				s := exprString(e)
				if strings.HasPrefix(s, "*schema_j5pb.Field_") {
					isField = true
					local = append(local, strings.TrimPrefix(s, "*schema_j5pb."))
				} else {
					local = append(local, "<other:"+s+">")
				}
			}
		}
		if isField {
			if k == nth {
				arms, hasDefault, found = local, def, true
				return false
			}
			k++
		}
		return true
	})
	return
}

func extractPipe(w *strings.Builder) error {
	// --- oneof members from the generated code
	var members []string
	_, gen, err := parseFile("gen/j5/schema/v1/schema_j5pb/schema.pb.go")
	if err != nil {
		return err
	}
	for _, d := range gen.Decls {
		fd, ok := d.(*ast.FuncDecl)
		if !ok || fd.Name.Name != "isField_Type" || fd.Recv == nil || len(fd.Recv.List) != 1 {
			continue
		}
		members = append(members, strings.TrimPrefix(exprString(fd.Recv.List[0].Type), "*"))
	}
	sort.Strings(members)

	// --- convertSchema arms
	_, conv, err := parseFile("internal/export/convert.go")
	if err != nil {
		return err
	}
	convArms, convDefault, ok := fieldTypeSwitch(funcDecl(conv, "convertSchema"), 0)
	if !ok {
		convArms = []string{"<convertSchema: no type switch over Field types found>"}
	}
	sort.Strings(convArms)

	// --- buildListRequest scalar arms (informational + obligation: no unknown arm)
	_, lst, err := parseFile("internal/j5client/list.go")
	if err != nil {
		return err
	}
	listArms, _, ok := fieldTypeSwitch(funcDecl(lst, "buildListRequest"), 0)
	if !ok {
		listArms = []string{"<buildListRequest: no type switch over Field types found>"}
	}
	sort.Strings(listArms)

	// --- consumer naming constants (structure/build_package.go)
	_, st, err := parseFile("internal/structure/build_package.go")
	if err != nil {
		return err
	}
	var suffixTests []string // HasSuffix(name, "...") in addStructure, in source order
	if fd := funcDecl(st, "addStructure"); fd != nil {
		ast.Inspect(fd.Body, func(n ast.Node) bool {
			if ce, ok := n.(*ast.CallExpr); ok && exprString(ce.Fun) == "strings.HasSuffix" && len(ce.Args) == 2 {
				if bl, ok := ce.Args[1].(*ast.BasicLit); ok {
					s, _ := unquote(bl.Value)
					suffixTests = append(suffixTests, s)
				} else {
					suffixTests = append(suffixTests, "<non-literal>")
				}
			}
			return true
		})
	} else {
		suffixTests = []string{"<addStructure not found>"}
	}
	// `method.Name() + "X"` concatenations and compared full names, per function
	concats := func(fn string) []string {
		var out []string
		fd := funcDecl(st, fn)
		if fd == nil {
			return []string{"<" + fn + " not found>"}
		}
		ast.Inspect(fd.Body, func(n ast.Node) bool {
			if be, ok := n.(*ast.BinaryExpr); ok && be.Op == token.ADD {
				if bl, ok := be.Y.(*ast.BasicLit); ok && exprString(be.X) == "method.Name(…)" {
					s, _ := unquote(bl.Value)
					out = append(out, s)
				}
			}
			return true
		})
		return out
	}
	fullNames := func(fn string) []string {
		var out []string
		fd := funcDecl(st, fn)
		if fd == nil {
			return []string{"<" + fn + " not found>"}
		}
		ast.Inspect(fd.Body, func(n ast.Node) bool {
			if be, ok := n.(*ast.BinaryExpr); ok && (be.Op == token.NEQ || be.Op == token.EQL) {
				if bl, ok := be.Y.(*ast.BasicLit); ok && bl.Kind == token.STRING && strings.HasSuffix(exprString(be.X), "FullName(…)") {
					s, _ := unquote(bl.Value)
					out = append(out, s)
				}
			}
			return true
		})
		return out
	}
	specialChars := "<unknown>"
	var pathByteTests []string
	if fd := funcDecl(st, "buildMethod"); fd != nil {
		ast.Inspect(fd.Body, func(n ast.Node) bool {
			switch x := n.(type) {
			case *ast.CallExpr:
				if exprString(x.Fun) == "strings.ContainsAny" && len(x.Args) == 2 {
					if bl, ok := x.Args[1].(*ast.BasicLit); ok {
						specialChars, _ = unquote(bl.Value)
					}
				}
			case *ast.BinaryExpr:
				if x.Op == token.EQL {
					if bl, ok := x.Y.(*ast.BasicLit); ok && bl.Kind == token.CHAR && strings.HasPrefix(exprString(x.X), "part[") {
						pathByteTests = append(pathByteTests, bl.Value)
					}
				}
			}
			return true
		})
	}

	// --- producer naming (sourcewalk)
	_, sw, err := parseFile("internal/j5s/sourcewalk/service.go")
	if err != nil {
		return err
	}
	_, tw, err := parseFile("internal/j5s/sourcewalk/topic.go")
	if err != nil {
		return err
	}
	fmtStrings := func(f *ast.File, fn string) []string {
		var out []string
		var body ast.Node
		for _, d := range f.Decls {
			if fd, ok := d.(*ast.FuncDecl); ok && fd.Name.Name == fn {
				body = fd.Body
			}
		}
		if body == nil {
			return []string{"<" + fn + " not found>"}
		}
		for _, s := range stringLits(body) {
			if strings.HasPrefix(s, "%s") && len(s) > 2 && !strings.ContainsAny(s[2:], "% ") || s == "google.api.HttpBody" || s == "Service" {
				out = append(out, s)
			}
		}
		return out
	}

	// --- j5convert/service.go: the rewrite
	_, cs, err := parseFile("internal/j5s/j5convert/service.go")
	if err != nil {
		return err
	}
	rewriteFacts := []string{}
	if fd := funcDecl(cs, "visitServiceMethodNode"); fd != nil {
		ast.Inspect(fd.Body, func(n ast.Node) bool {
			switch x := n.(type) {
			case *ast.CallExpr:
				switch exprString(x.Fun) {
				case "strings.Split", "strings.Join", "strings.HasPrefix", "strings.ContainsAny":
					if len(x.Args) == 2 {
						rewriteFacts = append(rewriteFacts, exprString(x.Fun)+" "+exprString(x.Args[1]))
					}
				case "strcase.ToSnake":
					rewriteFacts = append(rewriteFacts, "strcase.ToSnake "+exprString(x.Args[0]))
				}
			case *ast.AssignStmt:
				if len(x.Lhs) == 1 && exprString(x.Lhs[0]) == "reqPathParts[…]" && len(x.Rhs) == 1 {
					rewriteFacts = append(rewriteFacts, "assign "+strings.Join(stringLits(x.Rhs[0]), ""))
				}
			}
			return true
		})
	} else {
		rewriteFacts = []string{"<visitServiceMethodNode not found>"}
	}

	// --- j5client: HasBody, raw response marker, fillRequest's prefix
	_, pfs, err := parseFile("internal/j5client/package_from_source.go")
	if err != nil {
		return err
	}
	hasBodyExpr := "<unknown>"
	rawMarker := "<unknown>"
	if fd := funcDecl(pfs, "methodFromSource"); fd != nil {
		ast.Inspect(fd.Body, func(n ast.Node) bool {
			switch x := n.(type) {
			case *ast.KeyValueExpr:
				if exprString(x.Key) == "HasBody" {
					if be, ok := x.Value.(*ast.BinaryExpr); ok {
						hasBodyExpr = exprString(be.X) + " " + be.Op.String() + " " + exprString(be.Y)
					} else {
						hasBodyExpr = "<not a comparison>"
					}
				}
			case *ast.BinaryExpr:
				if x.Op == token.EQL && exprString(x.X) == "src.ResponseSchema" {
					if bl, ok := x.Y.(*ast.BasicLit); ok {
						rawMarker, _ = unquote(bl.Value)
					}
				}
			}
			return true
		})
	}
	var fillFacts []string
	if fd := funcDecl(pfs, "fillRequest"); fd != nil {
		ast.Inspect(fd.Body, func(n ast.Node) bool {
			if ce, ok := n.(*ast.CallExpr); ok {
				switch exprString(ce.Fun) {
				case "strings.Split", "strings.HasPrefix", "strings.TrimPrefix":
					if len(ce.Args) == 2 {
						fillFacts = append(fillFacts, exprString(ce.Fun)+" "+exprString(ce.Args[1]))
					}
				}
			}
			return true
		})
	} else {
		fillFacts = []string{"<fillRequest not found>"}
	}

	// --- the guards that make the walks terminate
	// walkSchemaFields: a `for … range <param>` whose body compares the element with `root` and returns,
	// placed before the property loop; and every recursive call passes that parameter on.
	_, wk, err := parseFile("lib/j5schema/schema_walk.go")
	if err != nil {
		return err
	}
	walkGuard, walkRecursivePass := false, true
	if fd := funcDecl(wk, "walkSchemaFields"); fd != nil {
		params := map[string]bool{}
		for _, p := range fd.Type.Params.List {
			for _, n := range p.Names {
				params[n.Name] = true
			}
		}
		guardParam := ""
		for _, stmt := range fd.Body.List {
			rs, ok := stmt.(*ast.RangeStmt)
			if !ok {
				continue
			}
			if id, ok := rs.X.(*ast.Ident); ok && params[id.Name] && rs.Value != nil {
				elem := exprString(rs.Value)
				for _, b := range rs.Body.List {
					if is, ok := b.(*ast.IfStmt); ok {
						if be, ok := is.Cond.(*ast.BinaryExpr); ok && be.Op == token.EQL {
							a, c := exprString(be.X), exprString(be.Y)
							if (a == elem && c == "root") || (a == "root" && c == elem) {
								for _, s := range is.Body.List {
									if _, ok := s.(*ast.ReturnStmt); ok {
										walkGuard = true
										guardParam = id.Name
									}
								}
							}
						}
					}
				}
			}
			break // the guard has to be the first range statement (before the property loop)
		}
		appended := false
		ast.Inspect(fd.Body, func(n ast.Node) bool {
			switch x := n.(type) {
			case *ast.AssignStmt:
				if len(x.Lhs) == 1 && exprString(x.Lhs[0]) == guardParam && len(x.Rhs) == 1 {
					if ce, ok := x.Rhs[0].(*ast.CallExpr); ok && exprString(ce.Fun) == "append" && len(ce.Args) == 2 &&
						exprString(ce.Args[0]) == guardParam && exprString(ce.Args[1]) == "root" {
						appended = true
					}
				}
			case *ast.CallExpr:
				if exprString(x.Fun) == "walkSchemaFields" {
					if len(x.Args) == 0 || exprString(x.Args[len(x.Args)-1]) != guardParam {
						walkRecursivePass = false
					}
				}
			}
			return true
		})
		if !appended {
			walkGuard = false
		}
	} else {
		walkRecursivePass = false
	}
	// collectPackageRefs / assertRefsLink: the closure that handles a root schema looks the full name
	// up in a map and returns when present, and stores it before walking the properties.
	mapGuard := func(rel, fn, mapName string) bool {
		_, f, err := parseFile(rel)
		if err != nil {
			return false
		}
		fd := funcDecl(f, fn)
		if fd == nil {
			return false
		}
		lookup, store := false, false
		ast.Inspect(fd.Body, func(n ast.Node) bool {
			if as, ok := n.(*ast.AssignStmt); ok && len(as.Rhs) == 1 {
				if ie, ok := as.Rhs[0].(*ast.IndexExpr); ok && exprString(ie.X) == mapName && len(as.Lhs) == 2 {
					lookup = true
				}
				if len(as.Lhs) == 1 {
					if ie, ok := as.Lhs[0].(*ast.IndexExpr); ok && exprString(ie.X) == mapName {
						store = true
					}
				}
			}
			if is, ok := n.(*ast.IfStmt); ok && is.Init != nil {
				if as, ok := is.Init.(*ast.AssignStmt); ok && len(as.Rhs) == 1 && len(as.Lhs) == 2 {
					if ie, ok := as.Rhs[0].(*ast.IndexExpr); ok && exprString(ie.X) == mapName {
						lookup = true
					}
				}
			}
			return true
		})
		return lookup && store
	}

	// --- enum default filters: producer's check (buildField, enum arm: the error of
	// enumRef.mapValues(<…>.DefaultFilters) is returned), mapValues' spelling rule, and the
	// consumer's lookup (OptionByName, buildEnum's prefix)
	enumDefaultsChecked := false
	if _, ff, err := parseFile("internal/j5s/j5convert/fields.go"); err == nil {
		if fd := funcDecl(ff, "buildField"); fd != nil {
			ast.Inspect(fd.Body, func(n ast.Node) bool {
				cc, ok := n.(*ast.CaseClause)
				if !ok || len(cc.List) != 1 || exprString(cc.List[0]) != "*schema_j5pb.Field_Enum" {
					return true
				}
				ast.Inspect(clauseBlock(cc), func(m ast.Node) bool {
					is, ok := m.(*ast.IfStmt)
					if !ok || is.Init == nil {
						return true
					}
					as, ok := is.Init.(*ast.AssignStmt)
					if !ok || len(as.Rhs) != 1 {
						return true
					}
					ce, ok := as.Rhs[0].(*ast.CallExpr)
					if !ok || exprString(ce.Fun) != "enumRef.mapValues" || len(ce.Args) != 1 || !strings.HasSuffix(exprString(ce.Args[0]), ".DefaultFilters") {
						return true
					}
					if be, ok := is.Cond.(*ast.BinaryExpr); ok && be.Op == token.NEQ && exprString(be.X) == "err" && exprString(be.Y) == "nil" {
						for _, st := range is.Body.List {
							if rs, ok := st.(*ast.ReturnStmt); ok && len(rs.Results) == 2 && exprString(rs.Results[0]) == "nil" && exprString(rs.Results[1]) != "nil" {
								enumDefaultsChecked = true
							}
						}
					}
					return true
				})
				return false
			})
		}
	}
	callFacts := func(rel, fn string, funs ...string) []string {
		_, f, err := parseFile(rel)
		if err != nil {
			return []string{"<" + rel + " unreadable>"}
		}
		fd := funcDecl(f, fn)
		if fd == nil {
			return []string{"<" + fn + " not found>"}
		}
		out := []string{}
		ast.Inspect(fd.Body, func(n ast.Node) bool {
			switch x := n.(type) {
			case *ast.CallExpr:
				for _, want := range funs {
					if exprString(x.Fun) == want {
						args := []string{}
						for _, a := range x.Args {
							args = append(args, exprString(a))
						}
						out = append(out, want+" "+strings.Join(args, " "))
					}
				}
			case *ast.AssignStmt:
				if len(x.Lhs) == 1 && len(x.Rhs) == 1 {
					if be, ok := x.Rhs[0].(*ast.BinaryExpr); ok && be.Op == token.ADD {
						out = append(out, "assign "+exprString(x.Lhs[0])+" = "+exprString(be.X)+" + "+exprString(be.Y))
					}
				}
				if len(x.Lhs) == 2 && len(x.Rhs) == 1 {
					if ie, ok := x.Rhs[0].(*ast.IndexExpr); ok {
						out = append(out, "lookup "+exprString(ie.X)+" "+exprString(ie.Index))
					}
				}
			case *ast.BinaryExpr:
				if x.Op == token.EQL {
					out = append(out, "eq "+exprString(x.X)+" "+exprString(x.Y))
				}
			}
			return true
		})
		return out
	}
	mapValuesFacts := callFacts("internal/j5s/j5convert/summary.go", "mapValues", "strings.HasPrefix")
	optionByNameFacts := callFacts("lib/j5schema/root_schema.go", "OptionByName", "strings.TrimPrefix")
	buildEnumFacts := callFacts("lib/j5schema/schema_from_proto.go", "buildEnum", "strings.HasSuffix", "strings.TrimSuffix", "strings.TrimPrefix")
	listEnumFacts := []string{}
	for _, f := range callFacts("internal/j5client/list.go", "buildListRequest", "enumSchema.OptionByName") {
		if strings.HasPrefix(f, "enumSchema.OptionByName") || f == "eq foundVal nil" || strings.HasPrefix(f, "<") {
			listEnumFacts = append(listEnumFacts, f)
		}
	}

	// --- flattening, list-request preconditions, swagger path grouping (shapes the models rely on)
	condStrings := func(rel, fn string) []string {
		_, f, err := parseFile(rel)
		if err != nil {
			return []string{"<" + rel + " unreadable>"}
		}
		fd := funcDecl(f, fn)
		if fd == nil {
			return []string{"<" + fn + " not found>"}
		}
		out := []string{}
		var render func(e ast.Expr) string
		render = func(e ast.Expr) string {
			switch x := e.(type) {
			case *ast.BinaryExpr:
				return render(x.X) + " " + x.Op.String() + " " + render(x.Y)
			case *ast.UnaryExpr:
				return x.Op.String() + render(x.X)
			case *ast.CallExpr:
				args := []string{}
				for _, a := range x.Args {
					args = append(args, render(a))
				}
				return exprString(x.Fun) + "(" + strings.Join(args, ", ") + ")"
			case *ast.ParenExpr:
				return "(" + render(x.X) + ")"
			}
			return exprString(e)
		}
		ast.Inspect(fd.Body, func(n ast.Node) bool {
			switch x := n.(type) {
			case *ast.IfStmt:
				out = append(out, "if "+render(x.Cond))
			case *ast.AssignStmt:
				if len(x.Lhs) == 1 && len(x.Rhs) == 1 {
					if ce, ok := x.Rhs[0].(*ast.CallExpr); ok && exprString(ce.Fun) == "append" {
						out = append(out, exprString(x.Lhs[0])+" = "+render(ce))
					}
				}
			case *ast.BranchStmt:
				out = append(out, x.Tok.String())
			}
			return true
		})
		return out
	}
	clientPropsFacts := condStrings("lib/j5schema/root_schema.go", "clientProperties")
	swaggerAddFacts := []string{}
	for _, f := range condStrings("internal/export/swagger.go", "addMethod") {
		if strings.Contains(f, "MapKey") || strings.Contains(f, "found") || f == "break" || strings.HasPrefix(f, "dd.Paths") {
			swaggerAddFacts = append(swaggerAddFacts, f)
		}
	}
	fillListFacts := []string{}
	for _, f := range condStrings("internal/j5client/package_from_source.go", "fillRequest") {
		if strings.Contains(f, "isQueryRequest") || strings.Contains(f, "responseSchema") {
			fillListFacts = append(fillListFacts, f)
		}
	}
	listShapeFacts := []string{}
	for _, f := range condStrings("internal/j5client/list.go", "buildListRequest") {
		if strings.Contains(f, "foundArray") || f == "if !ok" {
			listShapeFacts = append(listShapeFacts, f)
		}
	}
	compileListFacts := condStrings("internal/j5s/j5convert/service.go", "checkListMethod")
	listCheckCalled := false
	if fd := funcDecl(cs, "visitServiceMethodNode"); fd != nil {
		ast.Inspect(fd.Body, func(n ast.Node) bool {
			if is, ok := n.(*ast.IfStmt); ok && is.Init != nil {
				if as, ok := is.Init.(*ast.AssignStmt); ok && len(as.Rhs) == 1 {
					if ce, ok := as.Rhs[0].(*ast.CallExpr); ok && exprString(ce.Fun) == "ww.checkListMethod" {
						for _, st := range is.Body.List {
							if es, ok := st.(*ast.ExprStmt); ok {
								if c2, ok := es.X.(*ast.CallExpr); ok && exprString(c2.Fun) == "ww.addError" {
									listCheckCalled = true
								}
							}
						}
					}
				}
			}
			return true
		})
	}
	// outer type switch of buildListRequest's callback: which j5schema field types it looks at
	listOuterArms := []string{}
	if fd := funcDecl(lst, "buildListRequest"); fd != nil {
		done := false
		ast.Inspect(fd.Body, func(n ast.Node) bool {
			ts, ok := n.(*ast.TypeSwitchStmt)
			if !ok || done {
				return !done
			}
			local := []string{}
			for _, c := range ts.Body.List {
				for _, e := range c.(*ast.CaseClause).List {
					local = append(local, exprString(e))
				}
			}
			for _, a := range local {
				if strings.HasPrefix(a, "*j5schema.") {
					listOuterArms = local
					done = true
					return false
				}
			}
			return true
		})
	}
	// BuildSwagger: which services reach the document
	swaggerServiceLoops := []string{}
	if _, cf, err := parseFile("internal/export/convert.go"); err == nil {
		if fd := funcDecl(cf, "BuildSwagger"); fd != nil {
			ast.Inspect(fd.Body, func(n ast.Node) bool {
				if rs, ok := n.(*ast.RangeStmt); ok {
					swaggerServiceLoops = append(swaggerServiceLoops, "range "+exprString(rs.X))
				}
				return true
			})
		}
	}

	// the OpenAPI assembly modelled in Pipe/SwaggerDoc.lean: statement skeletons of addMethod,
	// convertObjectItem / convertOneofItem, ConvertRootSchema, BuildSwagger and the `$ref` formats
	swaggerOperationSkeleton := skeleton("internal/export/swagger.go", "addMethod")
	swaggerObjectSkeleton := skeleton("internal/export/convert.go", "convertObjectItem")
	swaggerOneofSkeleton := skeleton("internal/export/convert.go", "convertOneofItem")
	swaggerRootSkeleton := skeleton("internal/export/convert.go", "ConvertRootSchema")
	swaggerBuildSkeleton := skeleton("internal/export/convert.go", "BuildSwagger")
	swaggerRefFormats := []string{}
	for _, f := range skeleton("internal/export/convert.go", "convertSchema") {
		if strings.HasPrefix(f, "Sprintf ") && strings.Contains(f, "#/") {
			swaggerRefFormats = append(swaggerRefFormats, f)
		}
	}

	fmt.Fprintf(w, "namespace J5V.Generated.Pipe\n")
	// buildListRequest: what the array search ranges over (the response's own properties, like the
	// compiler's checkListMethod; not its client properties)
	listRequestRanges := []string{}
	for _, f := range skeleton("internal/j5client/list.go", "buildListRequest") {
		if strings.HasPrefix(f, "range ") {
			listRequestRanges = append(listRequestRanges, f)
		}
	}
	fmt.Fprintf(w, "def listRequestRanges : List String := %s\n", leanStrList(listRequestRanges))
	// API.ToJ5Proto(): which wrappers the field / root / method conversions build (Pipe/SwaggerProto.lean `toProto`)
	toJ5FieldWrappers := []string{}
	for _, recv := range []string{"ObjectField", "OneofField", "EnumField"} {
		toJ5FieldWrappers = append(toJ5FieldWrappers, recv+": "+strings.Join(compositeTypes("lib/j5schema/field_schema.go", recv, "ToJ5Field"), " "))
	}
	clientRootWrappers := []string{
		"ObjectSchema.ToJ5ClientRoot: " + strings.Join(compositeTypes("lib/j5schema/root_schema.go", "ObjectSchema", "ToJ5ClientRoot"), " "),
		"OneofSchema.ToJ5Root: " + strings.Join(compositeTypes("lib/j5schema/root_schema.go", "OneofSchema", "ToJ5Root"), " "),
		"EnumSchema.ToJ5Root: " + strings.Join(compositeTypes("lib/j5schema/root_schema.go", "EnumSchema", "ToJ5Root"), " "),
	}
	methodRequestField := keyValueOf("internal/j5client/j5package.go", "Method", "ToJ5Proto", "Request")
	fmt.Fprintf(w, "def toJ5FieldWrappers : List String := %s\n", leanStrList(toJ5FieldWrappers))
	fmt.Fprintf(w, "def clientRootWrappers : List String := %s\n", leanStrList(clientRootWrappers))
	fmt.Fprintf(w, "def methodRequestField : String := %s\n", leanStr(methodRequestField))
	fmt.Fprintf(w, "def swaggerOperationSkeleton : List String := %s\n", leanStrList(swaggerOperationSkeleton))
	fmt.Fprintf(w, "def swaggerObjectSkeleton : List String := %s\n", leanStrList(swaggerObjectSkeleton))
	fmt.Fprintf(w, "def swaggerOneofSkeleton : List String := %s\n", leanStrList(swaggerOneofSkeleton))
	fmt.Fprintf(w, "def swaggerRootSkeleton : List String := %s\n", leanStrList(swaggerRootSkeleton))
	fmt.Fprintf(w, "def swaggerBuildSkeleton : List String := %s\n", leanStrList(swaggerBuildSkeleton))
	fmt.Fprintf(w, "def swaggerRefFormats : List String := %s\n", leanStrList(swaggerRefFormats))
	fmt.Fprintf(w, "def fieldOneofMembers : List String := %s\n", leanStrList(members))
	fmt.Fprintf(w, "def convertSchemaArms : List String := %s\n", leanStrList(convArms))
	fmt.Fprintf(w, "def convertSchemaHasDefaultError : Bool := %s\n", leanBool(convDefault))
	fmt.Fprintf(w, "def listRequestArms : List String := %s\n", leanStrList(listArms))
	fmt.Fprintf(w, "def consumerSuffixTests : List String := %s\n", leanStrList(suffixTests))
	fmt.Fprintf(w, "def consumerMethodConcats : List String := %s\n", leanStrList(concats("buildMethod")))
	fmt.Fprintf(w, "def consumerMethodFullNames : List String := %s\n", leanStrList(fullNames("buildMethod")))
	fmt.Fprintf(w, "def consumerTopicConcats : List String := %s\n", leanStrList(concats("buildTopicMethod")))
	fmt.Fprintf(w, "def consumerTopicFullNames : List String := %s\n", leanStrList(fullNames("buildTopicMethod")))
	fmt.Fprintf(w, "def consumerSpecialChars : String := %s\n", leanStr(specialChars))
	fmt.Fprintf(w, "def consumerPathByteTests : List String := %s\n", leanStrList(pathByteTests))
	fmt.Fprintf(w, "def producerServiceFormats : List String := %s\n", leanStrList(fmtStrings(sw, "accept")))
	fmt.Fprintf(w, "def producerTopicFormats : List String := %s\n", leanStrList(fmtStrings(tw, "acceptTopic")))
	fmt.Fprintf(w, "def producerRewriteFacts : List String := %s\n", leanStrList(rewriteFacts))
	fmt.Fprintf(w, "def clientHasBodyExpr : String := %s\n", leanStr(hasBodyExpr))
	fmt.Fprintf(w, "def clientRawResponseMarker : String := %s\n", leanStr(rawMarker))
	fmt.Fprintf(w, "def clientFillRequestFacts : List String := %s\n", leanStrList(fillFacts))
	fmt.Fprintf(w, "def walkHasAncestorGuard : Bool := %s\n", leanBool(walkGuard))
	fmt.Fprintf(w, "def walkRecursionPassesGuard : Bool := %s\n", leanBool(walkRecursivePass))
	fmt.Fprintf(w, "def collectRefsHasVisitedMap : Bool := %s\n", leanBool(mapGuard("internal/j5client/j5package.go", "collectPackageRefs", "schemas")))
	fmt.Fprintf(w, "def assertRefsHasVisitedMap : Bool := %s\n", leanBool(mapGuard("lib/j5schema/schema_set.go", "assertRefsLink", "seenSchemas")))
	fmt.Fprintf(w, "def compileChecksEnumDefaults : Bool := %s\n", leanBool(enumDefaultsChecked))
	fmt.Fprintf(w, "def mapValuesFacts : List String := %s\n", leanStrList(mapValuesFacts))
	fmt.Fprintf(w, "def optionByNameFacts : List String := %s\n", leanStrList(optionByNameFacts))
	fmt.Fprintf(w, "def buildEnumFacts : List String := %s\n", leanStrList(buildEnumFacts))
	fmt.Fprintf(w, "def listEnumLookupFacts : List String := %s\n", leanStrList(listEnumFacts))
	fmt.Fprintf(w, "def clientPropertiesFacts : List String := %s\n", leanStrList(clientPropsFacts))
	fmt.Fprintf(w, "def swaggerAddMethodFacts : List String := %s\n", leanStrList(swaggerAddFacts))
	fmt.Fprintf(w, "def fillRequestListFacts : List String := %s\n", leanStrList(fillListFacts))
	fmt.Fprintf(w, "def listRequestShapeFacts : List String := %s\n", leanStrList(listShapeFacts))
	fmt.Fprintf(w, "def listRequestOuterArms : List String := %s\n", leanStrList(listOuterArms))
	fmt.Fprintf(w, "def compileListCheckCalled : Bool := %s\n", leanBool(listCheckCalled))
	fmt.Fprintf(w, "def compileListCheckFacts : List String := %s\n", leanStrList(compileListFacts))
	fmt.Fprintf(w, "def swaggerRangeLoops : List String := %s\n", leanStrList(swaggerServiceLoops))
	fmt.Fprintf(w, "end J5V.Generated.Pipe\n")
	return nil
}

// skeleton: the control structure of a function in source order, as strings: range loops, if
// conditions, type-switch arms, the In / Required / Code fields of composite literals, map-index
// assignments, and fmt.Sprintf / fmt.Errorf-free format strings of Sprintf calls. A function that
// is not found gives ["<name not found>"], so that the dependent obligation fails.
func skeleton(file, fn string) []string {
	_, f, err := parseFile(file)
	if err != nil {
		return []string{"<" + file + " unreadable>"}
	}
	fd := funcDecl(f, fn)
	if fd == nil || fd.Body == nil {
		return []string{"<" + fn + " not found>"}
	}
	var render func(e ast.Expr) string
	render = func(e ast.Expr) string {
		switch x := e.(type) {
		case *ast.BinaryExpr:
			return render(x.X) + " " + x.Op.String() + " " + render(x.Y)
		case *ast.UnaryExpr:
			return x.Op.String() + render(x.X)
		case *ast.ParenExpr:
			return "(" + render(x.X) + ")"
		case *ast.CallExpr:
			args := []string{}
			for _, a := range x.Args {
				args = append(args, render(a))
			}
			return exprString(x.Fun) + "(" + strings.Join(args, ", ") + ")"
		}
		return exprString(e)
	}
	out := []string{}
	ast.Inspect(fd.Body, func(n ast.Node) bool {
		switch x := n.(type) {
		case *ast.RangeStmt:
			out = append(out, "range "+render(x.X))
		case *ast.IfStmt:
			out = append(out, "if "+render(x.Cond))
		case *ast.CaseClause:
			if len(x.List) == 0 {
				out = append(out, "default")
			}
			for _, e := range x.List {
				out = append(out, "case "+render(e))
			}
		case *ast.KeyValueExpr:
			if id, ok := x.Key.(*ast.Ident); ok && (id.Name == "In" || id.Name == "Required" || id.Name == "Code" || id.Name == "IsOneof") {
				out = append(out, id.Name+": "+render(x.Value))
			}
		case *ast.AssignStmt:
			if len(x.Lhs) == 1 {
				if ix, ok := x.Lhs[0].(*ast.IndexExpr); ok {
					out = append(out, render(ix.X)+"["+render(ix.Index)+"] =")
				}
			}
		case *ast.CallExpr:
			if exprString(x.Fun) == "fmt.Sprintf" && len(x.Args) > 0 {
				if bl, ok := x.Args[0].(*ast.BasicLit); ok {
					args := []string{}
					for _, a := range x.Args[1:] {
						args = append(args, render(a))
					}
					out = append(out, "Sprintf "+bl.Value+" "+strings.Join(args, ", "))
				}
			}
		}
		return true
	})
	return out
}

// methodOf: the method `name` with receiver type `recv` (pointer or value) of a file.
func methodOf(file, recv, name string) *ast.FuncDecl {
	_, f, err := parseFile(file)
	if err != nil {
		return nil
	}
	for _, d := range f.Decls {
		fd, ok := d.(*ast.FuncDecl)
		if !ok || fd.Name.Name != name || fd.Recv == nil || len(fd.Recv.List) != 1 {
			continue
		}
		rt := fd.Recv.List[0].Type
		if st, ok := rt.(*ast.StarExpr); ok {
			rt = st.X
		}
		if id, ok := rt.(*ast.Ident); ok && id.Name == recv {
			return fd
		}
	}
	return nil
}

// compositeTypes: the type names of the composite literals of a method body, in source order
// (["<not found>"] when the method does not exist).
func compositeTypes(file, recv, name string) []string {
	fd := methodOf(file, recv, name)
	if fd == nil || fd.Body == nil {
		return []string{"<" + recv + "." + name + " not found>"}
	}
	out := []string{}
	ast.Inspect(fd.Body, func(n ast.Node) bool {
		if cl, ok := n.(*ast.CompositeLit); ok && cl.Type != nil {
			out = append(out, exprString(cl.Type))
		}
		return true
	})
	return out
}

// keyValueOf: the value given to `key` in the first composite literal of a method that sets it.
func keyValueOf(file, recv, name, key string) string {
	fd := methodOf(file, recv, name)
	if fd == nil || fd.Body == nil {
		return "<" + recv + "." + name + " not found>"
	}
	out := "<" + key + " not set>"
	done := false
	ast.Inspect(fd.Body, func(n ast.Node) bool {
		if kv, ok := n.(*ast.KeyValueExpr); ok && !done {
			if id, ok := kv.Key.(*ast.Ident); ok && id.Name == key {
				out = exprString(kv.Value)
				done = true
			}
		}
		return !done
	})
	return out
}
