package main

import (
	"fmt"
	"go/ast"
	"go/token"
	"strconv"
	"strings"
)

// print (C05): the facts of internal/j5s/protoprint the Lean model J5V.Print.{TextString,Order,Layout} is written
// from: the escape table and the case conditions of prototextString (optionreflect/walk.go), the byte class of
// indexNeedEscapeInString, the typeOrder constants and the body of sourceElements.Less (elements.go), the blank-line
// rule of printElements and which element kinds are followed by addGap (types.go), the bodies of commentLines and
// leadingComments (protoprint.go). Anything not found is emitted as "<unknown>" / an empty table, so that the
// `decide` obligations C05_src_* in Props/C05.lean fail.
func init() { extractors["print"] = extractPrint }

const printDir = "internal/j5s/protoprint/"

func charCode(e ast.Expr) (int, bool) {
	bl, ok := e.(*ast.BasicLit)
	if !ok || bl.Kind != token.CHAR {
		return 0, false
	}
	s, err := strconv.Unquote(bl.Value)
	if err != nil || len([]rune(s)) != 1 {
		return 0, false
	}
	return int([]rune(s)[0]), true
}

func leanNatPairs(ps [][2]int) string {
	q := make([]string, len(ps))
	for i, p := range ps {
		q[i] = fmt.Sprintf("(%d, %d)", p[0], p[1])
	}
	return "[" + strings.Join(q, ", ") + "]"
}

func leanStrIntPairs(names []string, vals []int) string {
	q := make([]string, len(names))
	for i := range names {
		q[i] = fmt.Sprintf("(%s, %d)", leanStr(names[i]), vals[i])
	}
	return "[" + strings.Join(q, ", ") + "]"
}

func leanStrBoolPairs(names []string, vals []bool) string {
	q := make([]string, len(names))
	for i := range names {
		q[i] = fmt.Sprintf("(%s, %s)", leanStr(names[i]), leanBool(vals[i]))
	}
	return "[" + strings.Join(q, ", ") + "]"
}

// the single statement `out = append(out, X)`: X
func appendedArg(st ast.Stmt) ast.Expr {
	as, ok := st.(*ast.AssignStmt)
	if !ok || len(as.Lhs) != 1 || len(as.Rhs) != 1 || exprString(as.Lhs[0]) != "out" {
		return nil
	}
	call, ok := as.Rhs[0].(*ast.CallExpr)
	if !ok || exprString(call.Fun) != "append" || len(call.Args) != 2 || exprString(call.Args[0]) != "out" || call.Ellipsis.IsValid() {
		return nil
	}
	return call.Args[1]
}

func callsAddGap(n ast.Node) bool {
	found := false
	ast.Inspect(n, func(m ast.Node) bool {
		if c, ok := m.(*ast.CallExpr); ok && exprString(c.Fun) == "fb.addGap" {
			found = true
		}
		return true
	})
	return found
}

func recvMethodDecl(f *ast.File, recv, name string) *ast.FuncDecl {
	for _, d := range f.Decls {
		fd, ok := d.(*ast.FuncDecl)
		if !ok || fd.Name.Name != name || fd.Recv == nil || len(fd.Recv.List) != 1 {
			continue
		}
		if strings.TrimPrefix(exprString(fd.Recv.List[0].Type), "*") == recv {
			return fd
		}
	}
	return nil
}

func extractPrint(w *strings.Builder) error {
	// ---- optionreflect/walk.go: prototextString, indexNeedEscapeInString
	fset, f, err := parseFile(printDir + "optionreflect/walk.go")
	if err != nil {
		return err
	}
	outerCases := []string{}
	outputASCII, escDefault, unicodeBranch, needEscape := "<unknown>", "<unknown>", "<unknown>", "<unknown>"
	var escTable [][2]int
	escTableOk := false
	if fd := funcDecl(f, "prototextString"); fd != nil {
		ast.Inspect(fd.Body, func(n ast.Node) bool {
			switch x := n.(type) {
			case *ast.AssignStmt:
				if x.Tok == token.DEFINE && len(x.Lhs) == 1 && exprString(x.Lhs[0]) == "outputASCII" && len(x.Rhs) == 1 {
					outputASCII = src(fset, x.Rhs[0])
				}
			case *ast.SwitchStmt:
				if x.Tag == nil && len(outerCases) == 0 {
					// the tagless switch over the decoded rune
					for _, c := range x.Body.List {
						cc := c.(*ast.CaseClause)
						if cc.List == nil {
							outerCases = append(outerCases, "default")
							continue
						}
						conds := make([]string, len(cc.List))
						for i, e := range cc.List {
							conds[i] = src(fset, e)
						}
						outerCases = append(outerCases, strings.Join(conds, " , "))
						if len(outerCases) == 3 {
							// the non-ASCII branch: everything after `out = append(out, '\\')`
							parts := []string{}
							for _, st := range cc.Body {
								parts = append(parts, src(fset, st))
							}
							unicodeBranch = strings.Join(parts, " ; ")
						}
					}
				} else if x.Tag != nil && exprString(x.Tag) == "r" && !escTableOk {
					// the escape letters
					escTableOk = true
					for _, c := range x.Body.List {
						cc := c.(*ast.CaseClause)
						if cc.List == nil {
							parts := []string{}
							for _, st := range cc.Body {
								parts = append(parts, src(fset, st))
							}
							escDefault = strings.Join(parts, " ; ")
							continue
						}
						if len(cc.Body) != 1 {
							escTableOk = false
							continue
						}
						arg := appendedArg(cc.Body[0])
						for _, e := range cc.List {
							code, ok := charCode(e)
							if !ok || arg == nil {
								escTableOk = false
								continue
							}
							if letter, ok := charCode(arg); ok {
								escTable = append(escTable, [2]int{code, letter})
							} else if src(fset, arg) == "byte(r)" {
								escTable = append(escTable, [2]int{code, code})
							} else {
								escTableOk = false
							}
						}
					}
				}
			}
			return true
		})
	}
	if !escTableOk {
		escTable = nil
	}
	if fd := funcDecl(f, "indexNeedEscapeInString"); fd != nil {
		ast.Inspect(fd.Body, func(n ast.Node) bool {
			if is, ok := n.(*ast.IfStmt); ok && needEscape == "<unknown>" {
				needEscape = src(fset, is.Cond)
			}
			return true
		})
	}

	// ---- elements.go: typeOrder, Less
	fset2, f2, err := parseFile(printDir + "elements.go")
	if err != nil {
		return err
	}
	var toNames []string
	var toVals []int
	typeOrderDefault := -1
	if fd := recvMethodDecl(f2, "sourceElements", "add"); fd != nil {
		for _, st := range fd.Body.List {
			switch x := st.(type) {
			case *ast.AssignStmt:
				if x.Tok == token.DEFINE && len(x.Lhs) == 1 && exprString(x.Lhs[0]) == "typeOrder" {
					if bl, ok := x.Rhs[0].(*ast.BasicLit); ok {
						fmt.Sscan(bl.Value, &typeOrderDefault)
					}
				}
			case *ast.TypeSwitchStmt:
				for _, c := range x.Body.List {
					cc := c.(*ast.CaseClause)
					val := -1
					if len(cc.Body) == 1 {
						if as, ok := cc.Body[0].(*ast.AssignStmt); ok && len(as.Lhs) == 1 && exprString(as.Lhs[0]) == "typeOrder" {
							if bl, ok := as.Rhs[0].(*ast.BasicLit); ok {
								fmt.Sscan(bl.Value, &val)
							}
						}
					}
					for _, e := range cc.List {
						toNames = append(toNames, src(fset2, e))
						toVals = append(toVals, val)
					}
					if cc.List == nil {
						toNames = append(toNames, "default")
						toVals = append(toVals, val)
					}
				}
			}
		}
	}
	lessBody := "<unknown>"
	if fd := recvMethodDecl(f2, "sourceElements", "Less"); fd != nil {
		lessBody = src(fset2, fd.Body)
	}

	// ---- types.go: printElements
	fset3, f3, err := parseFile(printDir + "types.go")
	if err != nil {
		return err
	}
	gapCond, sortCall := "<unknown>", "<unknown>"
	var gaNames []string
	var gaVals []bool
	loopUpdates := []string{}
	if fd := recvMethodDecl(f3, "fileBuilder", "printElements"); fd != nil {
		if len(fd.Body.List) > 0 {
			sortCall = src(fset3, fd.Body.List[0])
		}
		ast.Inspect(fd.Body, func(n ast.Node) bool {
			rs, ok := n.(*ast.RangeStmt)
			if !ok {
				return true
			}
			for _, st := range rs.Body.List {
				switch x := st.(type) {
				case *ast.IfStmt:
					if gapCond == "<unknown>" && callsAddGap(x.Body) && x.Else == nil && len(x.Body.List) == 1 {
						gapCond = src(fset3, x.Cond)
					}
				case *ast.AssignStmt:
					loopUpdates = append(loopUpdates, src(fset3, x))
				case *ast.TypeSwitchStmt:
					for _, c := range x.Body.List {
						cc := c.(*ast.CaseClause)
						gap := false
						for _, b := range cc.Body {
							// a top-level `fb.addGap()` statement of the case (not one inside the error return)
							if es, ok := b.(*ast.ExprStmt); ok && callsAddGap(es) {
								gap = true
							}
						}
						for _, e := range cc.List {
							gaNames = append(gaNames, src(fset3, e))
							gaVals = append(gaVals, gap)
						}
					}
				}
			}
			return false
		})
	}

	// ---- protoprint.go: commentLines, leadingComments
	fset4, f4, err := parseFile(printDir + "protoprint.go")
	if err != nil {
		return err
	}
	commentLinesBody, leadingBody := "<unknown>", "<unknown>"
	if fd := funcDecl(f4, "commentLines"); fd != nil {
		commentLinesBody = src(fset4, fd.Body)
	}
	if fd := recvMethodDecl(f4, "fileBuilder", "leadingComments"); fd != nil {
		leadingBody = src(fset4, fd.Body)
	}

	fmt.Fprintln(w, "namespace J5V.Generated.Print")
	fmt.Fprintf(w, "def escTable : List (Nat × Nat) := %s\n", leanNatPairs(escTable))
	fmt.Fprintf(w, "def escDefault : String := %s\n", leanStr(escDefault))
	fmt.Fprintf(w, "def escOuterCases : List String := %s\n", leanStrList(outerCases))
	fmt.Fprintf(w, "def outputASCII : String := %s\n", leanStr(outputASCII))
	fmt.Fprintf(w, "def unicodeBranch : String := %s\n", leanStr(unicodeBranch))
	fmt.Fprintf(w, "def needEscape : String := %s\n", leanStr(needEscape))
	fmt.Fprintf(w, "def typeOrderDefault : Int := %d\n", typeOrderDefault)
	fmt.Fprintf(w, "def typeOrderCases : List (String × Int) := %s\n", leanStrIntPairs(toNames, toVals))
	fmt.Fprintf(w, "def lessBody : String := %s\n", leanStr(lessBody))
	fmt.Fprintf(w, "def sortCall : String := %s\n", leanStr(sortCall))
	fmt.Fprintf(w, "def gapCondSrc : String := %s\n", leanStr(gapCond))
	fmt.Fprintf(w, "def loopUpdates : List String := %s\n", leanStrList(loopUpdates))
	fmt.Fprintf(w, "def gapAfter : List (String × Bool) := %s\n", leanStrBoolPairs(gaNames, gaVals))
	fmt.Fprintf(w, "def commentLinesBody : String := %s\n", leanStr(commentLinesBody))
	fmt.Fprintf(w, "def leadingCommentsBody : String := %s\n", leanStr(leadingBody))
	fmt.Fprintln(w, "end J5V.Generated.Print")
	return nil
}
