package main

import (
	"fmt"
	"go/ast"
	"go/token"
	"strings"
)

// E9 (id62 part): constants and call shapes of lib/id62/uuid62.go, the use of PatternString
// by the compiler and the schema reader, and the free identifiers of NewHash.
func init() { extractors["id62"] = extractId62 }

func extractId62(w *strings.Builder) error {
	_, f, err := parseFile("lib/id62/uuid62.go")
	if err != nil {
		return err
	}
	pattern := "<unknown>"
	for _, d := range f.Decls {
		gd, ok := d.(*ast.GenDecl)
		if !ok || (gd.Tok != token.VAR && gd.Tok != token.CONST) {
			continue
		}
		for _, sp := range gd.Specs {
			vs := sp.(*ast.ValueSpec)
			for i, n := range vs.Names {
				if n.Name == "PatternString" && i < len(vs.Values) {
					if bl, ok := vs.Values[i].(*ast.BasicLit); ok {
						if s, ok := unquote(bl.Value); ok {
							pattern = s
						}
					}
				}
			}
		}
	}
	// base62String: Text(base), pad format, width comparisons
	textBase, padFmt := -1, "<unknown>"
	var widths []string
	hasPanic := false
	if fd := funcDecl(f, "base62String"); fd != nil {
		ast.Inspect(fd.Body, func(n ast.Node) bool {
			switch x := n.(type) {
			case *ast.CallExpr:
				switch exprString(x.Fun) {
				case "i.Text":
					if bl, ok := x.Args[0].(*ast.BasicLit); ok {
						fmt.Sscan(bl.Value, &textBase)
					}
				case "fmt.Sprintf":
					if bl, ok := x.Args[0].(*ast.BasicLit); ok {
						padFmt, _ = unquote(bl.Value)
					}
				case "panic":
					hasPanic = true
				}
			case *ast.BinaryExpr:
				if x.Op == token.LSS || x.Op == token.GTR {
					widths = append(widths, exprString(x.X)+x.Op.String()+exprString(x.Y))
				}
			}
			return true
		})
	}
	setBase := -1
	var parseCmps []string
	if fd := funcDecl(f, "parseBase62"); fd != nil {
		ast.Inspect(fd.Body, func(n ast.Node) bool {
			switch x := n.(type) {
			case *ast.CallExpr:
				if exprString(x.Fun) == "i.SetString" && len(x.Args) == 2 {
					if bl, ok := x.Args[1].(*ast.BasicLit); ok {
						fmt.Sscan(bl.Value, &setBase)
					}
				}
			case *ast.BinaryExpr:
				if x.Op == token.LSS || x.Op == token.GTR {
					parseCmps = append(parseCmps, exprString(x.X)+x.Op.String()+exprString(x.Y))
				}
			}
			return true
		})
	}
	// NewHash: every identifier used must be a parameter, a local, a builtin or an import
	var free []string
	if fd := funcDecl(f, "NewHash"); fd != nil {
		locals := map[string]bool{"nil": true, "copy": true, "byte": true, "string": true, "UUID": true, "_": true}
		for _, p := range fd.Type.Params.List {
			for _, n := range p.Names {
				locals[n.Name] = true
			}
		}
		imports := map[string]bool{}
		for _, im := range f.Imports {
			p, _ := unquote(im.Path.Value)
			parts := strings.Split(p, "/")
			imports[parts[len(parts)-1]] = true
		}
		ast.Inspect(fd.Body, func(n ast.Node) bool {
			switch x := n.(type) {
			case *ast.AssignStmt:
				if x.Tok == token.DEFINE {
					for _, l := range x.Lhs {
						if id, ok := l.(*ast.Ident); ok {
							locals[id.Name] = true
						}
					}
				}
			case *ast.ValueSpec:
				for _, n := range x.Names {
					locals[n.Name] = true
				}
			case *ast.RangeStmt:
				if id, ok := x.Key.(*ast.Ident); ok {
					locals[id.Name] = true
				}
				if id, ok := x.Value.(*ast.Ident); ok {
					locals[id.Name] = true
				}
			}
			return true
		})
		seen := map[string]bool{}
		ast.Inspect(fd.Body, func(n ast.Node) bool {
			switch x := n.(type) {
			case *ast.SelectorExpr:
				if id, ok := x.X.(*ast.Ident); ok {
					if imports[id.Name] && !locals[id.Name] {
						if id.Name != "sha1" {
							seen[id.Name+"."+x.Sel.Name] = true
						}
						return false
					}
				}
				// method on a local: only inspect the receiver
				ast.Inspect(x.X, func(m ast.Node) bool {
					if id, ok := m.(*ast.Ident); ok && !locals[id.Name] {
						seen[id.Name] = true
					}
					return true
				})
				return false
			case *ast.Ident:
				if !locals[x.Name] {
					seen[x.Name] = true
				}
			}
			return true
		})
		free = sortedKeys(seen)
	} else {
		free = []string{"<NewHash not found>"}
	}

	uses := func(rel string) bool {
		_, g, err := parseFile(rel)
		if err != nil {
			return false
		}
		found := false
		ast.Inspect(g, func(n ast.Node) bool {
			if se, ok := n.(*ast.SelectorExpr); ok && exprString(se) == "id62.PatternString" {
				found = true
			}
			return true
		})
		return found
	}

	fmt.Fprintf(w, "namespace J5V.Generated.Id62\n")
	fmt.Fprintf(w, "def patternString : String := %s\n", leanStr(pattern))
	fmt.Fprintf(w, "def textBase : Int := %d\n", textBase)
	fmt.Fprintf(w, "def setStringBase : Int := %d\n", setBase)
	fmt.Fprintf(w, "def padFormat : String := %s\n", leanStr(padFmt))
	fmt.Fprintf(w, "def renderComparisons : List String := %s\n", leanStrList(widths))
	fmt.Fprintf(w, "def renderHasPanic : Bool := %s\n", leanBool(hasPanic))
	fmt.Fprintf(w, "def parseComparisons : List String := %s\n", leanStrList(parseCmps))
	fmt.Fprintf(w, "def newHashFreeIdents : List String := %s\n", leanStrList(free))
	fmt.Fprintf(w, "def compilerUsesPattern : Bool := %s\n", leanBool(uses("internal/j5s/j5convert/fields.go")))
	fmt.Fprintf(w, "def readerUsesPattern : Bool := %s\n", leanBool(uses("lib/j5schema/schema_from_proto.go")))
	fmt.Fprintf(w, "end J5V.Generated.Id62\n")
	return nil
}
