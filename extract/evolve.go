package main

// Extractor of the evolve cluster (C13): the three mechanisms the property's anchors name, as
// go/ast facts rendered from the current source (`J5V.Generated.Evolve`):
//
//	(1) field / enum numbers derive only from the declaration index
//	    sourcewalk/schema.go mapProperties: every mention of the counter `fieldNumber` and of the
//	    result slice `out`, in source order, with the enclosing control structure;
//	    j5convert/conversion.go visitEnumNode: every `addValue` call and every mention of `optionsToSet`;
//	(2) nested type names derive only from the parent path and the field name
//	    sourcewalk/property.go: every mention of the default nesting name in propertyNode.accept,
//	    buildFieldNode, replaceNested{Object,Oneof,Enum}; every mention of `parent` in the latter;
//	    sourcewalk/schema.go newRoot / rootType.NestPath / rootType.NameInPackage: every return
//	    statement and every mention of nestPath;
//	(3) messages / enums / services are appended in declaration order
//	    j5convert/builders.go add{Message,Enum,Service} of fileContext and MessageBuilder: every
//	    mutation (assignment with `=`, op-assignment, inc/dec) of the function body.
//
// A fact is a list of (context, event) strings: context = the chain of enclosing range / for / if /
// case headers, event = the rendered statement (or `callee#k` when the identifier is passed as the
// k-th argument of a call, `key: value` inside a composite literal). A function that is not found is
// emitted as [("unknown", "unknown")], so the dependent `decide` obligation fails.

import (
	"bytes"
	"fmt"
	"go/ast"
	"go/printer"
	"go/token"
	"strings"
)

func init() { extractors["evolve"] = extractEvolve }

type evEvent struct{ ctx, ev string }

func evRender(fset *token.FileSet, n ast.Node) string {
	var b bytes.Buffer
	if err := printer.Fprint(&b, fset, n); err != nil {
		return "unknown"
	}
	return strings.Join(strings.Fields(b.String()), " ")
}

// header of a control node as context
func evCtx(fset *token.FileSet, n ast.Node, child ast.Node) (string, bool) {
	switch x := n.(type) {
	case *ast.RangeStmt:
		h := "range " + evRender(fset, x.X)
		kv := ""
		if x.Key != nil {
			kv = evRender(fset, x.Key)
		}
		if x.Value != nil {
			kv += ", " + evRender(fset, x.Value)
		}
		if kv != "" {
			h = "for " + kv + " := " + h
		}
		return h, true
	case *ast.ForStmt:
		return "for", true
	case *ast.IfStmt:
		if child == ast.Node(x.Else) {
			return "else of " + evRender(fset, x.Cond), true
		}
		if child == ast.Node(x.Body) {
			return "if " + evRender(fset, x.Cond), true
		}
		return "", false // init / cond themselves
	case *ast.CaseClause:
		if x.List == nil {
			return "default", true
		}
		parts := make([]string, len(x.List))
		for i, e := range x.List {
			parts[i] = evRender(fset, e)
		}
		return "case " + strings.Join(parts, ", "), true
	case *ast.FuncLit:
		return "func", true
	}
	return "", false
}

// every mention of identifier `name` in fd, in source order
func evMentions(fset *token.FileSet, fd *ast.FuncDecl, name string) []evEvent {
	if fd == nil || fd.Body == nil {
		return []evEvent{{"unknown", "unknown"}}
	}
	var out []evEvent
	var stack []ast.Node
	ast.Inspect(fd.Body, func(n ast.Node) bool {
		if n == nil {
			stack = stack[:len(stack)-1]
			return true
		}
		stack = append(stack, n)
		id, ok := n.(*ast.Ident)
		if !ok || id.Name != name {
			return true
		}
		// context chain
		var ctx []string
		for i := 0; i < len(stack)-1; i++ {
			if h, ok := evCtx(fset, stack[i], stack[i+1]); ok {
				ctx = append(ctx, h)
			}
		}
		c := "top"
		if len(ctx) > 0 {
			c = strings.Join(ctx, " / ")
		}
		// nearest interesting enclosing node
		ev := ""
		for i := len(stack) - 2; i >= 0 && ev == ""; i-- {
			switch p := stack[i].(type) {
			case *ast.CallExpr:
				for k, a := range p.Args {
					if a == stack[i+1] && a == ast.Node(id) {
						ev = fmt.Sprintf("%s#%d", evRender(fset, p.Fun), k)
					}
				}
				if ev == "" && p.Fun == stack[i+1] {
					// the identifier is (part of) the callee: render the whole call
					ev = evRender(fset, p)
				}
			case *ast.KeyValueExpr:
				ev = evRender(fset, p)
			case *ast.IncDecStmt, *ast.AssignStmt, *ast.ReturnStmt, *ast.ExprStmt:
				ev = evRender(fset, p)
			case *ast.IfStmt:
				ev = "cond " + evRender(fset, p.Cond)
			case *ast.RangeStmt:
				ev = "ranged " + evRender(fset, p.X)
			case *ast.BlockStmt:
				ev = "other " + evRender(fset, stack[i+1])
			}
		}
		if ev == "" {
			ev = "unknown"
		}
		// the same statement mentions the identifier more than once (x = append(x, …)): one event
		if len(out) > 0 && out[len(out)-1] == (evEvent{c, ev}) {
			return true
		}
		out = append(out, evEvent{c, ev})
		return true
	})
	return out
}

func evReturns(fset *token.FileSet, fd *ast.FuncDecl) []evEvent {
	if fd == nil || fd.Body == nil {
		return []evEvent{{"unknown", "unknown"}}
	}
	var out []evEvent
	var stack []ast.Node
	ast.Inspect(fd.Body, func(n ast.Node) bool {
		if n == nil {
			stack = stack[:len(stack)-1]
			return true
		}
		stack = append(stack, n)
		r, ok := n.(*ast.ReturnStmt)
		if !ok {
			return true
		}
		var ctx []string
		for i := 0; i < len(stack)-1; i++ {
			if h, ok := evCtx(fset, stack[i], stack[i+1]); ok {
				ctx = append(ctx, h)
			}
		}
		c := "top"
		if len(ctx) > 0 {
			c = strings.Join(ctx, " / ")
		}
		out = append(out, evEvent{c, evRender(fset, r)})
		return true
	})
	return out
}

// every mutation of existing state: `=` / op-assignments and inc/dec (definitions with := are local)
func evMutations(fset *token.FileSet, fd *ast.FuncDecl) []evEvent {
	if fd == nil || fd.Body == nil {
		return []evEvent{{"unknown", "unknown"}}
	}
	var out []evEvent
	var stack []ast.Node
	ast.Inspect(fd.Body, func(n ast.Node) bool {
		if n == nil {
			stack = stack[:len(stack)-1]
			return true
		}
		stack = append(stack, n)
		switch s := n.(type) {
		case *ast.AssignStmt:
			if s.Tok == token.DEFINE {
				return true
			}
		case *ast.IncDecStmt:
		default:
			return true
		}
		var ctx []string
		for i := 0; i < len(stack)-1; i++ {
			if h, ok := evCtx(fset, stack[i], stack[i+1]); ok {
				ctx = append(ctx, h)
			}
		}
		c := "top"
		if len(ctx) > 0 {
			c = strings.Join(ctx, " / ")
		}
		out = append(out, evEvent{c, evRender(fset, n)})
		return true
	})
	return out
}

func evFind(f *ast.File, recv, name string) *ast.FuncDecl {
	if f == nil {
		return nil
	}
	for _, d := range f.Decls {
		fd, ok := d.(*ast.FuncDecl)
		if !ok || fd.Name.Name != name {
			continue
		}
		r := ""
		if fd.Recv != nil && len(fd.Recv.List) == 1 {
			t := fd.Recv.List[0].Type
			if s, ok := t.(*ast.StarExpr); ok {
				t = s.X
			}
			r = exprString(t)
		}
		if r == recv {
			return fd
		}
	}
	return nil
}

func evParams(fset *token.FileSet, fd *ast.FuncDecl) []evEvent {
	if fd == nil {
		return []evEvent{{"unknown", "unknown"}}
	}
	var out []evEvent
	for _, fl := range fd.Type.Params.List {
		for _, n := range fl.Names {
			out = append(out, evEvent{n.Name, evRender(fset, fl.Type)})
		}
	}
	return out
}

func evPairs(xs []evEvent) string {
	if len(xs) == 0 {
		return "[]"
	}
	q := make([]string, len(xs))
	for i, x := range xs {
		q[i] = fmt.Sprintf("(%s, %s)", leanStr(x.ctx), leanStr(x.ev))
	}
	return "[\n  " + strings.Join(q, ",\n  ") + "]"
}

func evTriples(fn []string, xs [][]evEvent) string {
	var q []string
	for i, f := range fn {
		for _, x := range xs[i] {
			q = append(q, fmt.Sprintf("(%s, %s, %s)", leanStr(f), leanStr(x.ctx), leanStr(x.ev)))
		}
	}
	if len(q) == 0 {
		return "[]"
	}
	return "[\n  " + strings.Join(q, ",\n  ") + "]"
}

func extractEvolve(w *strings.Builder) error {
	fmt.Fprintln(w, "namespace J5V.Generated.Evolve")
	fsS, schema, errS := parseFile("internal/j5s/sourcewalk/schema.go")
	fsP, prop, errP := parseFile("internal/j5s/sourcewalk/property.go")
	fsC, conv, errC := parseFile("internal/j5s/j5convert/conversion.go")
	fsB, build, errB := parseFile("internal/j5s/j5convert/builders.go")
	if errS != nil {
		schema = nil
	}
	if errP != nil {
		prop = nil
	}
	if errC != nil {
		conv = nil
	}
	if errB != nil {
		build = nil
	}

	// (1) numbers
	mp := evFind(schema, "", "mapProperties")
	fmt.Fprintln(w, "/-- mapProperties: every mention of the counter, in source order: (context, event) -/")
	fmt.Fprintf(w, "def mapPropertiesCounter : List (String × String) := %s\n", evPairs(evMentions(fsS, mp, "fieldNumber")))
	fmt.Fprintln(w, "/-- mapProperties: every mention of the result slice -/")
	fmt.Fprintf(w, "def mapPropertiesOut : List (String × String) := %s\n", evPairs(evMentions(fsS, mp, "out")))
	fmt.Fprintln(w, "/-- mapProperties: parameters (name, type) -/")
	fmt.Fprintf(w, "def mapPropertiesParams : List (String × String) := %s\n", evPairs(evParams(fsS, mp)))
	ve := evFind(conv, "conversionVisitor", "visitEnumNode")
	fmt.Fprintln(w, "/-- visitEnumNode: every addValue call -/")
	fmt.Fprintf(w, "def enumAddValue : List (String × String) := %s\n", evPairs(evMentions(fsC, ve, "addValue")))
	fmt.Fprintln(w, "/-- visitEnumNode: every mention of the option list being numbered -/")
	fmt.Fprintf(w, "def enumOptionsToSet : List (String × String) := %s\n", evPairs(evMentions(fsC, ve, "optionsToSet")))

	fsE, enumf, errE := parseFile("internal/j5s/j5convert/enum.go")
	if errE != nil {
		enumf = nil
	}
	fmt.Fprintln(w, "/-- enumBuilder.addValue: every mention of the number parameter -/")
	fmt.Fprintf(w, "def addValueNumber : List (String × String) := %s\n", evPairs(evMentions(fsE, evFind(enumf, "enumBuilder", "addValue"), "number")))

	fmt.Fprintln(w, "/-- enumBuilder.addValue: every mutation in the function body -/")
	fmt.Fprintf(w, "def addValueMutations : List (String × String) := %s\n", evPairs(evMutations(fsE, evFind(enumf, "enumBuilder", "addValue"))))

	// (2) nested names
	fmt.Fprintln(w, "/-- propertyNode.accept: every mention of the default nesting name -/")
	fmt.Fprintf(w, "def acceptDefaultName : List (String × String) := %s\n", evPairs(evMentions(fsP, evFind(prop, "propertyNode", "accept"), "defaultNestingName")))
	bfn := evFind(prop, "", "buildFieldNode")
	fmt.Fprintln(w, "/-- buildFieldNode: every mention of the default nesting name (callee#argument index) -/")
	fmt.Fprintf(w, "def buildFieldNodeDefaultName : List (String × String) := %s\n", evPairs(evMentions(fsP, bfn, "defaultNestingName")))
	fmt.Fprintln(w, "/-- buildFieldNode: every mention of the parent node -/")
	fmt.Fprintf(w, "def buildFieldNodeParent : List (String × String) := %s\n", evPairs(evMentions(fsP, bfn, "parent")))
	rn := []string{"replaceNestedObject", "replaceNestedOneof", "replaceNestedEnum"}
	var dn, pa [][]evEvent
	for _, n := range rn {
		fd := evFind(prop, "", n)
		dn = append(dn, evMentions(fsP, fd, "defaultName"))
		pa = append(pa, evMentions(fsP, fd, "parent"))
	}
	fmt.Fprintln(w, "/-- replaceNested*: every mention of the default name: (function, context, event) -/")
	fmt.Fprintf(w, "def replaceNestedDefaultName : List (String × String × String) := %s\n", evTriples(rn, dn))
	fmt.Fprintln(w, "/-- replaceNested*: every mention of the parent node -/")
	fmt.Fprintf(w, "def replaceNestedParent : List (String × String × String) := %s\n", evTriples(rn, pa))
	rf := []string{"newRoot", "rootType.NestPath", "rootType.NameInPackage"}
	rfd := []*ast.FuncDecl{evFind(schema, "", "newRoot"), evFind(schema, "rootType", "NestPath"), evFind(schema, "rootType", "NameInPackage")}
	var rets, nps [][]evEvent
	for _, fd := range rfd {
		rets = append(rets, evReturns(fsS, fd))
		nps = append(nps, evMentions(fsS, fd, "nestPath"))
	}
	fmt.Fprintln(w, "/-- newRoot / NestPath / NameInPackage: every return statement -/")
	fmt.Fprintf(w, "def rootReturns : List (String × String × String) := %s\n", evTriples(rf, rets))
	fmt.Fprintln(w, "/-- newRoot / NestPath / NameInPackage: every mention of nestPath -/")
	fmt.Fprintf(w, "def rootNestPath : List (String × String × String) := %s\n", evTriples(rf, nps))

	// (3) append order
	bf := []string{"fileContext.addMessage", "fileContext.addEnum", "fileContext.addService", "MessageBuilder.addMessage", "MessageBuilder.addEnum"}
	var muts [][]evEvent
	for _, n := range bf {
		parts := strings.SplitN(n, ".", 2)
		muts = append(muts, evMutations(fsB, evFind(build, parts[0], parts[1])))
	}
	fmt.Fprintln(w, "/-- builders.go add*: every mutation in the function body -/")
	fmt.Fprintf(w, "def builderMutations : List (String × String × String) := %s\n", evTriples(bf, muts))
	fmt.Fprintln(w, "end J5V.Generated.Evolve")
	return nil
}
