package main

// Extractors of the compile cluster (C02 C07 C13 C14 C17):
//   compileconsts (E9-compile): import path constants, naming suffix / format literals per function
//   setext        (E4): static Go type of every proto.SetExtension value vs the extension's declared type
//   imports       (E5): per buildField / buildProperty branch: extensions and well-known types used vs ensureImport calls in scope
//   maprange      (E8): every `range` over a map (and maps.Keys / maps.Values) in the C14 anchor files with the shape of its body
// Anything not recognised is emitted as "<unknown>" so that the dependent `decide` obligation fails.

import (
	"fmt"
	"go/ast"
	"go/parser"
	"go/token"
	"os"
	"path/filepath"
	"sort"
	"strings"
)

func init() {
	extractors["compileconsts"] = extractCompileConsts
	extractors["setext"] = extractSetExt
	extractors["imports"] = extractImports
	extractors["maprange"] = extractMapRange
}

const modulePath = "github.com/pentops/j5"

func leanTriples(xs [][3]string) string {
	q := make([]string, len(xs))
	for i, x := range xs {
		q[i] = fmt.Sprintf("(%s, %s, %s)", leanStr(x[0]), leanStr(x[1]), leanStr(x[2]))
	}
	return "[\n  " + strings.Join(q, ",\n  ") + "]"
}

func goFiles(dir string) []string {
	ents, err := os.ReadDir(filepath.Join(repo, dir))
	if err != nil {
		return nil
	}
	var out []string
	for _, e := range ents {
		n := e.Name()
		if strings.HasSuffix(n, ".go") && !strings.HasSuffix(n, "_test.go") {
			out = append(out, filepath.Join(dir, n))
		}
	}
	sort.Strings(out)
	return out
}

func funcName(fd *ast.FuncDecl) string {
	if fd.Recv != nil && len(fd.Recv.List) == 1 {
		t := fd.Recv.List[0].Type
		if s, ok := t.(*ast.StarExpr); ok {
			t = s.X
		}
		return exprString(t) + "." + fd.Name.Name
	}
	return fd.Name.Name
}

// ---------------------------------------------------------------- E9 compileconsts

func extractCompileConsts(w *strings.Builder) error {
	fmt.Fprintln(w, "namespace J5V.Generated.Compileconsts")
	// 1. the string constants of j5convert/imports.go
	_, f, err := parseFile("internal/j5s/j5convert/imports.go")
	if err != nil {
		return err
	}
	var consts [][2]string
	for _, d := range f.Decls {
		gd, ok := d.(*ast.GenDecl)
		if !ok || gd.Tok != token.CONST {
			continue
		}
		for _, sp := range gd.Specs {
			vs := sp.(*ast.ValueSpec)
			for i, n := range vs.Names {
				val := "<unknown>"
				if i < len(vs.Values) {
					if bl, ok := vs.Values[i].(*ast.BasicLit); ok {
						if s, ok := unquote(bl.Value); ok {
							val = s
						}
					}
				}
				consts = append(consts, [2]string{n.Name, val})
			}
		}
	}
	var cq []string
	for _, c := range consts {
		cq = append(cq, fmt.Sprintf("(%s, %s)", leanStr(c[0]), leanStr(c[1])))
	}
	fmt.Fprintf(w, "/-- string constants of j5convert/imports.go, in source order -/\ndef importConsts : List (String × String) := [\n  %s]\n", strings.Join(cq, ",\n  "))

	// 2. the implicit imports table: package -> (type, file)
	var implicit [][3]string
	ast.Inspect(f, func(n ast.Node) bool {
		vs, ok := n.(*ast.ValueSpec)
		if !ok || len(vs.Names) != 1 || vs.Names[0].Name != "implicitImports" || len(vs.Values) != 1 {
			return true
		}
		top, ok := vs.Values[0].(*ast.CompositeLit)
		if !ok {
			return false
		}
		for _, el := range top.Elts {
			kv, ok := el.(*ast.KeyValueExpr)
			if !ok {
				continue
			}
			pkg, _ := unquote(exprString(kv.Key))
			ast.Inspect(kv.Value, func(m ast.Node) bool {
				cl, ok := m.(*ast.CompositeLit)
				if !ok {
					return true
				}
				var name, file string
				for _, e2 := range cl.Elts {
					if kv2, ok := e2.(*ast.KeyValueExpr); ok {
						k := exprString(kv2.Key)
						if bl, ok := kv2.Value.(*ast.BasicLit); ok {
							v, _ := unquote(bl.Value)
							switch k {
							case "Name":
								name = v
							case "File":
								file = v
							}
						}
					}
				}
				if name != "" && file != "" {
					implicit = append(implicit, [3]string{pkg, name, file})
				}
				return true
			})
		}
		return false
	})
	fmt.Fprintf(w, "/-- implicitImports: (package, type, defining file) -/\ndef implicitImports : List (String × String × String) := %s\n", leanTriples(implicit))

	// 3. every string literal of the naming / numbering functions, per (file, function), in source order
	var lits [][3]string
	files := []string{
		"internal/j5s/sourcewalk/service.go", "internal/j5s/sourcewalk/topic.go", "internal/j5s/sourcewalk/entity.go",
		"internal/j5s/sourcewalk/file.go", "internal/j5s/sourcewalk/property.go", "internal/j5s/sourcewalk/schema.go",
		"internal/j5s/j5convert/conversion.go", "internal/j5s/j5convert/walker_context.go", "internal/j5s/j5convert/service.go",
		"internal/j5s/j5convert/enum.go", "internal/j5s/j5convert/builders.go",
	}
	for _, rel := range files {
		_, ff, err := parseFile(rel)
		if err != nil {
			return err
		}
		short := strings.TrimPrefix(rel, "internal/j5s/")
		for _, d := range ff.Decls {
			fd, ok := d.(*ast.FuncDecl)
			if !ok || fd.Body == nil {
				continue
			}
			ast.Inspect(fd.Body, func(n ast.Node) bool {
				if bl, ok := n.(*ast.BasicLit); ok && bl.Kind == token.STRING {
					if s, ok := unquote(bl.Value); ok {
						lits = append(lits, [3]string{short, funcName(fd), s})
					}
				}
				return true
			})
		}
	}
	fmt.Fprintf(w, "/-- string literals per (file, function), in source order -/\ndef stringLiterals : List (String × String × String) := %s\n", leanTriples(lits))

	// 4. strcase calls per function: which conversion is applied where
	var calls [][3]string
	for _, rel := range files {
		_, ff, err := parseFile(rel)
		if err != nil {
			return err
		}
		short := strings.TrimPrefix(rel, "internal/j5s/")
		for _, d := range ff.Decls {
			fd, ok := d.(*ast.FuncDecl)
			if !ok || fd.Body == nil {
				continue
			}
			ast.Inspect(fd.Body, func(n ast.Node) bool {
				if ce, ok := n.(*ast.CallExpr); ok {
					fn := exprString(ce.Fun)
					if strings.HasPrefix(fn, "strcase.") && len(ce.Args) == 1 {
						calls = append(calls, [3]string{short, funcName(fd), fn + "(" + argString(ce.Args[0]) + ")"})
					}
				}
				return true
			})
		}
	}
	fmt.Fprintf(w, "/-- strcase calls per (file, function), in source order -/\ndef strcaseCalls : List (String × String × String) := %s\n", leanTriples(calls))
	fmt.Fprintln(w, "end J5V.Generated.Compileconsts")
	return nil
}

func argString(e ast.Expr) string {
	switch x := e.(type) {
	case *ast.BinaryExpr:
		return argString(x.X) + " " + x.Op.String() + " " + argString(x.Y)
	case *ast.BasicLit:
		return x.Value
	case *ast.SliceExpr:
		lo, hi := "", ""
		if x.Low != nil {
			lo = argString(x.Low)
		}
		if x.High != nil {
			hi = argString(x.High)
		}
		return argString(x.X) + "[" + lo + ":" + hi + "]"
	}
	return exprString(e)
}

// ---------------------------------------------------------------- tiny static typing (AST only)

type pkgInfo struct {
	dir     string
	files   []*ast.File
	structs map[string]*ast.StructType
	imports map[*ast.File]map[string]string // local name -> import path
}

var pkgCache = map[string]*pkgInfo{}

func loadPkg(importPath string) *pkgInfo {
	if p, ok := pkgCache[importPath]; ok {
		return p
	}
	pkgCache[importPath] = nil
	if !strings.HasPrefix(importPath, modulePath) {
		return nil
	}
	dir := strings.TrimPrefix(strings.TrimPrefix(importPath, modulePath), "/")
	p := &pkgInfo{dir: dir, structs: map[string]*ast.StructType{}, imports: map[*ast.File]map[string]string{}}
	fset := token.NewFileSet()
	for _, rel := range goFiles(dir) {
		f, err := parser.ParseFile(fset, filepath.Join(repo, rel), nil, 0)
		if err != nil {
			continue
		}
		p.files = append(p.files, f)
		im := map[string]string{}
		for _, is := range f.Imports {
			path, _ := unquote(is.Path.Value)
			name := path[strings.LastIndex(path, "/")+1:]
			if is.Name != nil {
				name = is.Name.Name
			}
			im[name] = path
		}
		p.imports[f] = im
		for _, d := range f.Decls {
			gd, ok := d.(*ast.GenDecl)
			if !ok || gd.Tok != token.TYPE {
				continue
			}
			for _, sp := range gd.Specs {
				ts := sp.(*ast.TypeSpec)
				if st, ok := ts.Type.(*ast.StructType); ok {
					p.structs[ts.Name.Name] = st
				}
			}
		}
	}
	pkgCache[importPath] = p
	return p
}

// gtype is a resolved static type: pointer flag + defining package import path + type name.
type gtype struct {
	ptr  bool
	pkg  string
	name string
	kind string // "" named / unknown, "map", "slice", "basic"
}

func (t gtype) String() string {
	if t.name == "" {
		return "<unknown>"
	}
	short := t.pkg[strings.LastIndex(t.pkg, "/")+1:]
	s := short + "." + t.name
	if t.ptr {
		s = "*" + s
	}
	return s
}

// typeFromExpr resolves a type expression written in file (imports im) of package curPkg.
func typeFromExpr(e ast.Expr, im map[string]string, curPkg string) gtype {
	switch x := e.(type) {
	case *ast.MapType:
		return gtype{kind: "map", name: "map"}
	case *ast.ArrayType:
		return gtype{kind: "slice", name: "slice"}
	case *ast.Ellipsis:
		return gtype{kind: "slice", name: "slice"}
	case *ast.StarExpr:
		t := typeFromExpr(x.X, im, curPkg)
		t.ptr = true
		return t
	case *ast.Ident:
		switch x.Name {
		case "string", "int", "int32", "int64", "uint32", "uint64", "bool", "byte", "error":
			return gtype{kind: "basic", name: x.Name}
		}
		return gtype{pkg: curPkg, name: x.Name}
	case *ast.SelectorExpr:
		if id, ok := x.X.(*ast.Ident); ok {
			if p, ok := im[id.Name]; ok {
				return gtype{pkg: p, name: x.Sel.Name}
			}
		}
	}
	return gtype{}
}

// funcResults returns the result types of function / method `name` of package pkgPath
// (name is "Recv.Method" or "Func").
func funcResults(pkgPath, name string) []gtype {
	p := loadPkg(pkgPath)
	if p == nil {
		return nil
	}
	for _, f := range p.files {
		for _, d := range f.Decls {
			fd, ok := d.(*ast.FuncDecl)
			if !ok || funcName(fd) != name || fd.Type.Results == nil {
				continue
			}
			var out []gtype
			for _, r := range fd.Type.Results.List {
				t := typeFromExpr(r.Type, p.imports[f], pkgPath)
				n := len(r.Names)
				if n == 0 {
					n = 1
				}
				for i := 0; i < n; i++ {
					out = append(out, t)
				}
			}
			return out
		}
	}
	return nil
}

func fieldType(t gtype, field string) gtype {
	p := loadPkg(t.pkg)
	if p == nil {
		return gtype{}
	}
	st, ok := p.structs[t.name]
	if !ok {
		return gtype{}
	}
	// find the file that declares the struct to resolve its imports
	var im map[string]string
	for _, f := range p.files {
		for _, d := range f.Decls {
			if gd, ok := d.(*ast.GenDecl); ok && gd.Tok == token.TYPE {
				for _, sp := range gd.Specs {
					if sp.(*ast.TypeSpec).Name.Name == t.name {
						im = p.imports[f]
					}
				}
			}
		}
	}
	for _, fl := range st.Fields.List {
		for _, n := range fl.Names {
			if n.Name == field {
				return typeFromExpr(fl.Type, im, t.pkg)
			}
		}
		if len(fl.Names) == 0 { // embedded
			et := typeFromExpr(fl.Type, im, t.pkg)
			if et.name == field {
				return et
			}
			if ft := fieldType(et, field); ft.name != "" {
				return ft
			}
		}
	}
	return gtype{}
}

type tenv struct {
	im     map[string]string
	curPkg string
	vars   map[string]gtype
}

func (env *tenv) typeOf(e ast.Expr) gtype {
	switch x := e.(type) {
	case *ast.UnaryExpr:
		if x.Op == token.AND {
			if cl, ok := x.X.(*ast.CompositeLit); ok {
				t := typeFromExpr(cl.Type, env.im, env.curPkg)
				t.ptr = true
				return t
			}
		}
	case *ast.CompositeLit:
		return typeFromExpr(x.Type, env.im, env.curPkg)
	case *ast.Ident:
		if t, ok := env.vars[x.Name]; ok {
			return t
		}
	case *ast.SelectorExpr:
		base := env.typeOf(x.X)
		if base.name != "" {
			return fieldType(base, x.Sel.Name)
		}
	case *ast.TypeAssertExpr:
		return typeFromExpr(x.Type, env.im, env.curPkg)
	case *ast.StarExpr:
		t := env.typeOf(x.X)
		t.ptr = false
		return t
	case *ast.ParenExpr:
		return env.typeOf(x.X)
	case *ast.CallExpr:
		if rs := env.callResults(x); len(rs) > 0 {
			return rs[0]
		}
	case *ast.IndexExpr:
		return gtype{}
	case *ast.BasicLit:
		return gtype{kind: "basic", name: "lit"}
	}
	return gtype{}
}

func (env *tenv) callResults(x *ast.CallExpr) []gtype {
	switch fn := x.Fun.(type) {
	case *ast.Ident:
		if fn.Name == "make" && len(x.Args) > 0 {
			return []gtype{typeFromExpr(x.Args[0], env.im, env.curPkg)}
		}
		if fn.Name == "append" && len(x.Args) > 0 {
			return []gtype{{kind: "slice", name: "slice"}}
		}
		return funcResults(env.curPkg, fn.Name)
	case *ast.SelectorExpr:
		if id, ok := fn.X.(*ast.Ident); ok {
			if ip, ok := env.im[id.Name]; ok {
				if _, shadow := env.vars[id.Name]; !shadow {
					switch id.Name + "." + fn.Sel.Name {
					case "maps.Keys", "maps.Values", "strings.Split", "strings.Fields":
						return []gtype{{kind: "slice", name: "slice"}}
					}
					return funcResults(ip, fn.Sel.Name)
				}
			}
		}
		recv := env.typeOf(fn.X)
		if recv.name != "" && recv.kind == "" {
			return funcResults(recv.pkg, recv.name+"."+fn.Sel.Name)
		}
	}
	return nil
}

// bind records the types of parameters, receivers and simple `x := expr` / `var x T` locals, in
// source order (later bindings win, which is what a flow-insensitive reading needs here).
func (env *tenv) bindFunc(fd *ast.FuncDecl) {
	add := func(fl *ast.FieldList) {
		if fl == nil {
			return
		}
		for _, f := range fl.List {
			t := typeFromExpr(f.Type, env.im, env.curPkg)
			for _, n := range f.Names {
				env.vars[n.Name] = t
			}
		}
	}
	add(fd.Recv)
	add(fd.Type.Params)
	ast.Inspect(fd.Body, func(n ast.Node) bool {
		switch x := n.(type) {
		case *ast.FuncLit:
			add(x.Type.Params)
		case *ast.AssignStmt:
			if x.Tok == token.DEFINE && len(x.Lhs) == len(x.Rhs) {
				for i, l := range x.Lhs {
					if id, ok := l.(*ast.Ident); ok {
						if t := env.typeOf(x.Rhs[i]); t.name != "" {
							env.vars[id.Name] = t
						}
					}
				}
			} else if x.Tok == token.DEFINE && len(x.Rhs) == 1 {
				if ce, ok := x.Rhs[0].(*ast.CallExpr); ok {
					rs := env.callResults(ce)
					for i, l := range x.Lhs {
						if id, ok := l.(*ast.Ident); ok && i < len(rs) && rs[i].name != "" {
							env.vars[id.Name] = rs[i]
						}
					}
				}
			}
		case *ast.RangeStmt:
			// for k, v := range <slice of named> is not needed here; keys of maps are untyped for us
		case *ast.ValueSpec:
			if x.Type != nil {
				t := typeFromExpr(x.Type, env.im, env.curPkg)
				for _, n := range x.Names {
					env.vars[n.Name] = t
				}
			}
		case *ast.TypeSwitchStmt:
			// `switch st := node.Schema.(type) { case *schema_j5pb.Field_Bool: … }` : bound per clause below
		}
		return true
	})
}

// ---------------------------------------------------------------- E4 setext

// extension declarations of generated packages: E_Xxx -> ExtensionType
func extensionTypes(importPath string) map[string]string {
	out := map[string]string{}
	p := loadPkg(importPath)
	if p == nil {
		return out
	}
	for _, f := range p.files {
		var infos []string // ExtensionType per index, per extTypes var
		varName := ""
		for _, d := range f.Decls {
			gd, ok := d.(*ast.GenDecl)
			if !ok || gd.Tok != token.VAR {
				continue
			}
			for _, sp := range gd.Specs {
				vs := sp.(*ast.ValueSpec)
				for i, n := range vs.Names {
					if !strings.HasSuffix(n.Name, "_extTypes") || i >= len(vs.Values) {
						continue
					}
					cl, ok := vs.Values[i].(*ast.CompositeLit)
					if !ok {
						continue
					}
					varName = n.Name
					for _, el := range cl.Elts {
						ecl, ok := el.(*ast.CompositeLit)
						if !ok {
							continue
						}
						et := "<unknown>"
						for _, kv := range ecl.Elts {
							if k, ok := kv.(*ast.KeyValueExpr); ok && exprString(k.Key) == "ExtensionType" {
								// (*MessageOptions)(nil)
								if ce, ok := k.Value.(*ast.CallExpr); ok {
									if pe, ok := ce.Fun.(*ast.ParenExpr); ok {
										t := typeFromExpr(pe.X, p.imports[f], importPath)
										et = t.String()
									}
								}
							}
						}
						infos = append(infos, et)
					}
				}
			}
		}
		if varName == "" {
			continue
		}
		// E_Xxx = &file_…_extTypes[i]
		ast.Inspect(f, func(n ast.Node) bool {
			vs, ok := n.(*ast.ValueSpec)
			if !ok {
				return true
			}
			for i, nm := range vs.Names {
				if !strings.HasPrefix(nm.Name, "E_") || i >= len(vs.Values) {
					continue
				}
				if ue, ok := vs.Values[i].(*ast.UnaryExpr); ok {
					if ie, ok := ue.X.(*ast.IndexExpr); ok && exprString(ie.X) == varName {
						var idx int
						fmt.Sscan(exprString(ie.Index), &idx)
						if idx < len(infos) {
							out[nm.Name] = infos[idx]
						}
					}
				}
			}
			return true
		})
	}
	return out
}

// third-party extensions used by j5convert: declared types transcribed from the generated code of
// the pinned module versions (buf.build/gen/go/bufbuild/protovalidate, google.golang.org/genproto).
var thirdPartyExt = map[string]string{
	"validate.E_Field":   "*validate.FieldConstraints",
	"annotations.E_Http": "*annotations.HttpRule",
}

func extractSetExt(w *strings.Builder) error {
	fmt.Fprintln(w, "namespace J5V.Generated.Setext")
	pkgPath := modulePath + "/internal/j5s/j5convert"
	p := loadPkg(pkgPath)
	if p == nil {
		return fmt.Errorf("cannot load j5convert")
	}
	var rows []string
	n := 0
	for _, f := range p.files {
		im := p.imports[f]
		for _, d := range f.Decls {
			fd, ok := d.(*ast.FuncDecl)
			if !ok || fd.Body == nil {
				continue
			}
			env := &tenv{im: im, curPkg: pkgPath, vars: map[string]gtype{}}
			env.bindFunc(fd)
			ast.Inspect(fd.Body, func(nd ast.Node) bool {
				ce, ok := nd.(*ast.CallExpr)
				if !ok || exprString(ce.Fun) != "proto.SetExtension" || len(ce.Args) != 3 {
					return true
				}
				ext := exprString(ce.Args[1])
				declared := "<unknown>"
				if t, ok := thirdPartyExt[ext]; ok {
					declared = t
				} else if parts := strings.SplitN(ext, ".", 2); len(parts) == 2 {
					if ip, ok := im[parts[0]]; ok {
						if t, ok := extensionTypes(ip)[parts[1]]; ok {
							declared = t
						}
					}
				}
				got := env.typeOf(ce.Args[2]).String()
				rows = append(rows, fmt.Sprintf("(%s, %s, %s, %s)", leanStr(funcName(fd)), leanStr(ext), leanStr(declared), leanStr(got)))
				n++
				return true
			})
		}
	}
	fmt.Fprintf(w, "/-- every proto.SetExtension call of j5convert: (function, extension, declared Go type of the extension, static Go type of the value) -/\n")
	fmt.Fprintf(w, "def setExtensionCalls : List (String × String × String × String) := [\n  %s]\n", strings.Join(rows, ",\n  "))
	fmt.Fprintf(w, "def setExtensionCallCount : Nat := %d\n", n)
	fmt.Fprintln(w, "end J5V.Generated.Setext")
	return nil
}

// ---------------------------------------------------------------- E5 imports

// For every switch-case branch of buildField and for buildProperty / the visitors: what is used
// (extensions set, well-known type names, setJ5Ext) and which ensureImport constants are in scope
// (called in the same block or an enclosing block of the same branch, in any order).
func extractImports(w *strings.Builder) error {
	fmt.Fprintln(w, "namespace J5V.Generated.Imports")
	var rows []string
	for _, rel := range goFiles("internal/j5s/j5convert") {
		_, f, err := parseFile(rel)
		if err != nil {
			return err
		}
		for _, d := range f.Decls {
			fd, ok := d.(*ast.FuncDecl)
			if !ok || fd.Body == nil {
				continue
			}
			fn := funcName(fd)
			var walk func(stmts []ast.Stmt, branch string, scope []string)
			uses := func(n ast.Node, branch string, scope []string) {
				ast.Inspect(n, func(m ast.Node) bool {
					switch x := m.(type) {
					case *ast.BlockStmt, *ast.CaseClause:
						return false // handled by walk with their own scope
					case *ast.CallExpr:
						switch exprString(x.Fun) {
						case "proto.SetExtension":
							if len(x.Args) == 3 {
								rows = append(rows, fmt.Sprintf("(%s, %s, %s, %s)", leanStr(fn), leanStr(branch), leanStr("ext:"+exprString(x.Args[1])), leanStrList(scope)))
							}
						case "ww.setJ5Ext":
							rows = append(rows, fmt.Sprintf("(%s, %s, %s, %s)", leanStr(fn), leanStr(branch), leanStr("setJ5Ext"), leanStrList(scope)))
						case "gl.Ptr":
							if len(x.Args) == 1 {
								if bl, ok := x.Args[0].(*ast.BasicLit); ok && bl.Kind == token.STRING {
									if s, _ := unquote(bl.Value); strings.HasPrefix(s, ".") {
										rows = append(rows, fmt.Sprintf("(%s, %s, %s, %s)", leanStr(fn), leanStr(branch), leanStr("type:"+s), leanStrList(scope)))
									}
								} else if id, ok := x.Args[0].(*ast.Ident); ok && id.Name == "googleProtoEmptyType" {
									rows = append(rows, fmt.Sprintf("(%s, %s, %s, %s)", leanStr(fn), leanStr(branch), leanStr("type:googleProtoEmptyType"), leanStrList(scope)))
								}
							}
						}
					}
					return true
				})
			}
			ensureIn := func(stmts []ast.Stmt) []string {
				var out []string
				for _, s := range stmts {
					ast.Inspect(s, func(m ast.Node) bool {
						switch x := m.(type) {
						case *ast.BlockStmt, *ast.CaseClause, *ast.FuncLit:
							return false
						case *ast.CallExpr:
							if strings.HasSuffix(exprString(x.Fun), ".ensureImport") && len(x.Args) == 1 {
								out = append(out, exprString(x.Args[0]))
							}
						}
						return true
					})
				}
				return out
			}
			walk = func(stmts []ast.Stmt, branch string, scope []string) {
				scope = append(append([]string{}, scope...), ensureIn(stmts)...)
				for _, s := range stmts {
					uses(s, branch, scope)
					// descend into nested blocks with the accumulated scope
					ast.Inspect(s, func(m ast.Node) bool {
						switch x := m.(type) {
						case *ast.FuncLit:
							walk(x.Body.List, branch, scope)
							return false
						case *ast.BlockStmt:
							walk(x.List, branch, scope)
							return false
						case *ast.CaseClause:
							b := branch
							if len(x.List) > 0 {
								var names []string
								for _, e := range x.List {
									names = append(names, strings.TrimPrefix(exprString(e), "*"))
								}
								b = branch + "/" + strings.Join(names, "|")
							} else {
								b = branch + "/default"
							}
							walk(x.Body, b, scope)
							return false
						}
						return true
					})
				}
			}
			walk(fd.Body.List, "", nil)
		}
	}
	sort.Strings(rows)
	fmt.Fprintf(w, "/-- (function, switch branch path, what is used, ensureImport arguments in scope) -/\n")
	fmt.Fprintf(w, "def uses : List (String × String × String × List String) := [\n  %s]\n", strings.Join(rows, ",\n  "))
	fmt.Fprintln(w, "end J5V.Generated.Imports")
	return nil
}

// ---------------------------------------------------------------- E8 maprange

var c14Anchors = []string{
	"internal/j5s/protobuild/packages.go", "internal/j5s/protobuild/source_resolver.go", "internal/j5s/protobuild/linker.go",
	"internal/j5s/protobuild/dependencies.go", "internal/j5s/protobuild/lint.go",
	"internal/j5s/j5convert/builders.go", "internal/j5s/j5convert/imports.go", "internal/j5s/j5convert/summary.go",
	"internal/j5s/j5convert/summary_walk.go", "internal/j5s/j5convert/j5convert.go", "internal/j5s/j5convert/walker_context.go",
	"internal/j5s/protoprint/protoprint.go", "internal/j5s/protoprint/options.go", "internal/j5s/protoprint/elements.go",
	"internal/j5s/protoprint/optionreflect/builder.go", "internal/j5s/protoprint/optionreflect/walk.go",
}

func extractMapRange(w *strings.Builder) error {
	fmt.Fprintln(w, "namespace J5V.Generated.Maprange")
	var rows []string
	for _, rel := range c14Anchors {
		pkgPath := modulePath + "/" + filepath.Dir(rel)
		p := loadPkg(pkgPath)
		if p == nil {
			return fmt.Errorf("cannot load %s", pkgPath)
		}
		var f *ast.File
		for i, fn := range goFiles(filepath.Dir(rel)) {
			if fn == rel && i < len(p.files) {
				f = p.files[i]
			}
		}
		if f == nil {
			return fmt.Errorf("file %s not found", rel)
		}
		short := strings.TrimPrefix(rel, "internal/j5s/")
		for _, d := range f.Decls {
			fd, ok := d.(*ast.FuncDecl)
			if !ok || fd.Body == nil {
				continue
			}
			env := &tenv{im: p.imports[f], curPkg: pkgPath, vars: map[string]gtype{}}
			env.bindFunc(fd)
			sorted := map[string]bool{}
			ast.Inspect(fd.Body, func(n ast.Node) bool {
				if ce, ok := n.(*ast.CallExpr); ok {
					fn := exprString(ce.Fun)
					if (strings.HasPrefix(fn, "sort.") || strings.HasPrefix(fn, "slices.Sort")) && len(ce.Args) > 0 {
						sorted[exprString(ce.Args[0])] = true
					}
				}
				return true
			})
			ast.Inspect(fd.Body, func(n ast.Node) bool {
				switch x := n.(type) {
				case *ast.RangeStmt:
					t := env.typeOf(x.X)
					what := ""
					switch {
					case t.kind == "map":
						what = "range-map "
					case t.kind == "slice" || t.kind == "basic":
						return true
					case t.name != "" && t.kind == "":
						// a named type: protoreflect lists, generated slices … ranged through methods or not
						// a map unless declared so; named map types do not occur in these packages
						return true
					default:
						what = "range-unknown " // type not resolved: reported, the expectations table must list it
					}
					rows = append(rows, fmt.Sprintf("(%s, %s, %s, %s)", leanStr(short), leanStr(funcName(fd)), leanStr(what+exprString(x.X)), leanStr(bodyShape(x.Body, sorted))))
				case *ast.CallExpr:
					fn := exprString(x.Fun)
					if (fn == "maps.Keys" || fn == "maps.Values") && len(x.Args) == 1 {
						rows = append(rows, fmt.Sprintf("(%s, %s, %s, %s)", leanStr(short), leanStr(funcName(fd)), leanStr(fn+"("+argString(x.Args[0])+")"), leanStr("unsorted-slice")))
					}
					if strings.HasSuffix(fn, ".Range") || strings.HasSuffix(fn, ".RangeExtensions") || fn == "proto.RangeExtensions" {
						rows = append(rows, fmt.Sprintf("(%s, %s, %s, %s)", leanStr(short), leanStr(funcName(fd)), leanStr("callback-range "+fn), leanStr("protobuf-defined-order")))
					}
				}
				return true
			})
		}
	}
	fmt.Fprintf(w, "/-- every range over a map (or over a value whose type the extractor cannot resolve), every maps.Keys / maps.Values call and every\n    protoreflect Range callback in the C14 anchor files: (file, function, what, shape of the body) -/\n")
	fmt.Fprintf(w, "def mapRanges : List (String × String × String × String) := [\n  %s]\n", strings.Join(rows, ",\n  "))
	fmt.Fprintf(w, "def anchorFiles : List String := %s\n", leanStrList(c14Anchors))
	fmt.Fprintln(w, "end J5V.Generated.Maprange")
	return nil
}

// bodyShape summarises what the loop body does, as a '+'-joined sorted set of
//   insert-into-map   m[k] = v
//   append:<slice>[:sorted]   s = append(s, …) (sorted: a sort call on s exists in the function)
//   return            the body can return (first-error / first-match: order-dependent choice)
//   break|continue
//   call:<fn>         any other call
//   assign            any other assignment
func bodyShape(body *ast.BlockStmt, sorted map[string]bool) string {
	set := map[string]bool{}
	ast.Inspect(body, func(n ast.Node) bool {
		switch x := n.(type) {
		case *ast.AssignStmt:
			for i, l := range x.Lhs {
				if _, ok := l.(*ast.IndexExpr); ok {
					set["insert-into-map"] = true
					continue
				}
				if i < len(x.Rhs) {
					if ce, ok := x.Rhs[i].(*ast.CallExpr); ok && exprString(ce.Fun) == "append" {
						s := exprString(l)
						if sorted[s] {
							set["append:"+s+":sorted"] = true
						} else {
							set["append:"+s] = true
						}
						continue
					}
				}
				if x.Tok != token.DEFINE {
					set["assign"] = true
				}
			}
		case *ast.ReturnStmt:
			set["return"] = true
		case *ast.BranchStmt:
			set[x.Tok.String()] = true
		case *ast.CallExpr:
			fn := exprString(x.Fun)
			if fn != "append" && fn != "len" && fn != "string" && !strings.HasPrefix(fn, "fmt.") && !strings.HasPrefix(fn, "strings.") {
				set["call:"+fn] = true
			}
		}
		return true
	})
	var ks []string
	for k := range set {
		ks = append(ks, k)
	}
	sort.Strings(ks)
	if len(ks) == 0 {
		return "empty"
	}
	return strings.Join(ks, "+")
}
